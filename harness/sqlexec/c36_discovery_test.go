package discovery

// C36 harness (discovery part): generated buckets (segments of several topics and
// partitions, with/without .kfst time-index footer, incomplete segments without
// footer magic or without index) are served by an in-process S3 endpoint
// (c36_fakes3.go) to the REAL production lister stack built by discovery.New(cfg):
// s3Lister (+ time index reader), optionally the manifest lister (manifest written by
// the real ManifestBuilder.Build) and optionally the discovery cache. ListCompleted is
// called repeatedly (miss, hit, hit, after TTL expiry, hit) and EVERY field of every
// returned SegmentRef is compared across calls and with the bucket contents; the
// statistics of every returned listing must bound the records stored in the segments
// (implementation-side oracle) and equal the Coq model's (correspondence).

import (
	"context"
	"encoding/json"
	"fmt"
	"strings"
	"testing"
	"time"

	"github.com/kafscale/platform/addons/processors/sql-processor/internal/config"
)

type c36dCase struct {
	Segs       []VerifSeg `json:"segs"`
	Cache      bool       `json:"cache"`                // discovery cache enabled (TTL 60 s)
	MaxEntries int        `json:"max_entries"`          // cache MaxEntries (0 = unlimited)
	Manifest   bool       `json:"manifest"`             // manifest lister enabled; manifest.json built by the real builder
	TimeIndex  bool       `json:"time_index"`           // time index reader enabled (for the lister, and for the manifest build)
	RealSleep  bool       `json:"real_sleep,omitempty"` // TTL 1 s and a real 1.1 s sleep instead of rewinding the expiry
	Discovery  bool       `json:"discovery"`            // marks the case kind for --replay
}

var c36dTopics = []string{"alpha", "beta"}

func c36dConfig(cs c36dCase, url string) config.Config {
	cfg := config.Config{}
	cfg.S3 = config.S3Config{Bucket: "bkt", Namespace: "ns", Endpoint: url, Region: "us-east-1", PathStyle: true}
	cfg.TimeIndex.Enabled = cs.TimeIndex
	cfg.Manifest.Enabled = cs.Manifest
	cfg.Manifest.TTLSeconds = 60
	if cs.Cache {
		cfg.DiscoveryCache.TTLSeconds = 60
		cfg.DiscoveryCache.MaxEntries = cs.MaxEntries
	}
	if cs.RealSleep {
		cfg.Manifest.TTLSeconds = 1
		if cs.Cache {
			cfg.DiscoveryCache.TTLSeconds = 1
		}
	}
	return cfg
}

// c36dField renders every field of a SegmentRef (pointers dereferenced).
func c36dFields(ref SegmentRef) string {
	p := func(v *int64) string {
		if v == nil {
			return "nil"
		}
		return fmt.Sprint(*v)
	}
	return fmt.Sprintf("topic=%s part=%d base=%d seg=%s idx=%s size=%d mod=%s minOff=%s maxOff=%s minTs=%s maxTs=%s",
		ref.Topic, ref.Partition, ref.BaseOffset, ref.SegmentKey, ref.IndexKey, ref.SizeBytes,
		ref.LastModified.UTC().Format(time.RFC3339Nano), p(ref.MinOffset), p(ref.MaxOffset), p(ref.MinTimestamp), p(ref.MaxTimestamp))
}

func c36dCopy(refs []SegmentRef) []SegmentRef {
	cp := func(p *int64) *int64 {
		if p == nil {
			return nil
		}
		v := *p
		return &v
	}
	out := make([]SegmentRef, len(refs))
	for i, r := range refs {
		out[i] = r
		out[i].MinOffset, out[i].MaxOffset, out[i].MinTimestamp, out[i].MaxTimestamp = cp(r.MinOffset), cp(r.MaxOffset), cp(r.MinTimestamp), cp(r.MaxTimestamp)
	}
	return out
}

type c36dCall struct {
	expired bool
	refs    []SegmentRef
}

func c36dRun(cs c36dCase) ([]c36dCall, *VerifS3, string, error) {
	f := VerifNewS3(cs.Segs)
	ctx := context.Background()
	cfg := c36dConfig(cs, f.URL())
	// the .kfst time index objects are written by the real TimeIndexBuilder
	if err := VerifBuildTimeIndex(ctx, cfg, cs.Segs); err != nil {
		return nil, f, "", fmt.Errorf("time index build: %w", err)
	}
	for _, sg := range cs.Segs {
		if _, ok := f.Object(VerifKey(sg, ".kfst")); ok != (sg.Footer && sg.Listed()) {
			return nil, f, "", fmt.Errorf("time index object for %s present=%v, expected %v", VerifKey(sg, ".kfs"), ok, sg.Footer && sg.Listed())
		}
	}
	if cs.Manifest {
		// the manifest is produced the way cmd/backfill does: a lister without manifest, then the real builder
		bcfg := cfg
		bcfg.Manifest.Enabled = false
		bcfg.DiscoveryCache.TTLSeconds = 0
		bl, err := New(bcfg)
		if err != nil {
			return nil, f, "", err
		}
		b, err := NewManifestBuilder(cfg, bl)
		if err != nil {
			return nil, f, "", err
		}
		if err := b.Build(ctx); err != nil {
			return nil, f, "", fmt.Errorf("manifest build: %w", err)
		}
	}
	if cs.Manifest { // the manifest lister silently falls back to the S3 listing when it cannot use the manifest
		body, ok := f.Object("ns/manifest.json")
		entries, perr := parseManifest(body)
		if !ok || perr != nil || len(entries) != len(VerifSorted(cs.Segs)) {
			return nil, f, "", fmt.Errorf("manifest object unusable: present=%v err=%v entries=%d", ok, perr, len(entries))
		}
	}
	l, err := New(cfg)
	if err != nil {
		return nil, f, "", err
	}
	layers := VerifLayers(l)
	var calls []c36dCall
	for i, expire := range []bool{false, false, false, true, false} {
		if expire {
			if cs.RealSleep {
				time.Sleep(1100 * time.Millisecond)
			} else {
				VerifExpire(l)
			}
		}
		refs, err := l.ListCompleted(ctx)
		if err != nil {
			return calls, f, layers, fmt.Errorf("call %d: %w", i, err)
		}
		calls = append(calls, c36dCall{expired: expire, refs: c36dCopy(refs)})
		// the caller owns what it got: scribbling on it must not reach the cache
		for k := range refs {
			for _, p := range []*int64{refs[k].MinOffset, refs[k].MaxOffset, refs[k].MinTimestamp, refs[k].MaxTimestamp} {
				if p != nil {
					*p += 1000003
				}
			}
			refs[k].SizeBytes = -1
			refs[k].SegmentKey = "scribbled"
		}
	}
	return calls, f, layers, nil
}

func c36dOracle(cs c36dCase, calls []c36dCall, f *VerifS3) (string, string) {
	want := VerifSorted(cs.Segs)
	for ci, call := range calls {
		refs := call.refs
		if len(refs) != len(want) {
			return "listing-incomplete", fmt.Sprintf("call %d: ListCompleted returned %d segments, the bucket holds %d completed segments", ci, len(refs), len(want))
		}
		for i, ref := range refs {
			sg := want[i]
			body, _ := f.Object(VerifKey(sg, ".kfs"))
			if ref.Topic != sg.Topic || ref.Partition != sg.Part || ref.BaseOffset != sg.Base ||
				ref.SegmentKey != VerifKey(sg, ".kfs") || ref.IndexKey != VerifKey(sg, ".index") || ref.SizeBytes != int64(len(body)) ||
				ref.LastModified.UTC().Format("2006-01-02T15:04:05.000Z") != VerifLastModified {
				return "listing-identity", fmt.Sprintf("call %d segment %d: %s; bucket has %s/%d base %d size %d", ci, i, c36dFields(ref), sg.Topic, sg.Part, sg.Base, len(body))
			}
			if got, first := c36dFields(ref), c36dFields(calls[0].refs[i]); got != first {
				return "listing-changes-between-calls", fmt.Sprintf("call %d (expired=%v) segment %d: %s; the first call returned %s", ci, call.expired, i, got, first)
			}
			if cs.TimeIndex && sg.Footer { // the footer written by the builder must be read back, and be tight
				mnT, mxT := VerifMinMax(sg.Tss)
				_, mxO := VerifMinMax(sg.Offs)
				if ref.MinTimestamp == nil || ref.MaxTimestamp == nil || *ref.MinTimestamp != mnT || *ref.MaxTimestamp != mxT {
					return "time-index-footer-not-min-max", fmt.Sprintf("call %d: segment %s/%d base %d has record timestamps %v (min %d, max %d) but statistics %s", ci, ref.Topic, ref.Partition, ref.BaseOffset, sg.Tss, mnT, mxT, c36dFields(ref))
				}
				if ref.MaxOffset == nil || (i+1 == len(refs) || refs[i+1].Topic != ref.Topic || refs[i+1].Partition != ref.Partition) && *ref.MaxOffset != mxO {
					return "time-index-footer-not-min-max", fmt.Sprintf("call %d: last segment %s/%d base %d holds max offset %d but statistics %s", ci, ref.Topic, ref.Partition, ref.BaseOffset, mxO, c36dFields(ref))
				}
			}
			for k := range sg.Offs {
				o, ts := sg.Offs[k], sg.Tss[k]
				if (ref.MinOffset != nil && o < *ref.MinOffset) || (ref.MaxOffset != nil && o > *ref.MaxOffset) {
					return "offset-stats-unsound", fmt.Sprintf("call %d: segment %s/%d base %d holds offset %d outside its statistics (%s)", ci, ref.Topic, ref.Partition, ref.BaseOffset, o, c36dFields(ref))
				}
				if (ref.MinTimestamp != nil && ts < *ref.MinTimestamp) || (ref.MaxTimestamp != nil && ts > *ref.MaxTimestamp) {
					return "time-stats-unsound", fmt.Sprintf("call %d: segment %s/%d base %d holds timestamp %d outside its statistics (%s)", ci, ref.Topic, ref.Partition, ref.BaseOffset, ts, c36dFields(ref))
				}
			}
		}
	}
	return "", ""
}

func c36dGen(r *vRand) c36dCase {
	cs := c36dCase{Discovery: true, Cache: r.Chance(75), Manifest: r.Chance(40), TimeIndex: r.Chance(80)}
	if cs.Cache && r.Chance(15) {
		cs.MaxEntries = r.Range(1, 4)
	}
	for topic := 0; topic < 2; topic++ {
		nparts := r.Range(0, 2)
		for p := int32(0); p < int32(nparts); p++ {
			next := int64(0)
			if r.Chance(30) {
				next = int64(r.Range(1, 30))
			}
			clock := int64(r.Range(1, 50))
			nseg := r.Range(1, 4)
			for s := 0; s < nseg; s++ {
				sg := VerifSeg{Topic: c36dTopics[topic], Part: p, Base: next, Footer: r.Chance(70), Complete: true}
				n := r.Range(1, 4)
				for k := 0; k < n; k++ {
					if r.Chance(20) {
						next += int64(r.Range(1, 3))
					}
					ts := clock
					switch r.Intn(8) {
					case 0: // late event: far behind its neighbours (the clock does not move)
						ts = clock - int64(r.Range(10, 40))
					case 1: // producer clock skew ahead
						ts = clock + int64(r.Range(10, 40))
					case 2: // equal timestamps
					case 3:
						clock -= int64(r.Range(1, 6))
						ts = clock
					default:
						clock += int64(r.Range(1, 9))
						ts = clock
					}
					sg.Offs = append(sg.Offs, next)
					sg.Tss = append(sg.Tss, ts)
					next++
				}
				if r.Chance(15) {
					next += int64(r.Range(1, 5))
				}
				cs.Segs = append(cs.Segs, sg)
			}
			if r.Chance(25) { // the partition's newest segment is still being written
				sg := VerifSeg{Topic: c36dTopics[topic], Part: p, Base: next, Offs: []int64{next}, Tss: []int64{clock + 1}, Footer: r.Bool()}
				if r.Bool() {
					sg.Complete, sg.NoIndex = true, true
				}
				cs.Segs = append(cs.Segs, sg)
			}
		}
	}
	return cs
}

func c36dO(p *int64) string {
	if p == nil {
		return "None"
	}
	return "(Some " + cqZ(*p) + ")"
}

func c36dTopicIdx(name string) int64 {
	for k, n := range c36dTopics {
		if n == name {
			return int64(k)
		}
	}
	return -1
}

func c36dCoq(cs c36dCase, calls []c36dCall) string {
	raws := VerifSorted(cs.Segs)
	rs := make([]string, len(raws))
	for i, sg := range raws {
		recs := make([]string, len(sg.Offs))
		for k := range sg.Offs {
			recs[k] = fmt.Sprintf("mkRec %s %s", cqZ(sg.Offs[k]), cqZ(sg.Tss[k]))
		}
		footer := "None"
		if cs.TimeIndex && sg.Footer { // written by the real TimeIndexBuilder = the model's scan_segment; only read when the time index is enabled
			footer = "(scan_segment " + cqList(recs) + ")"
		}
		rs[i] = fmt.Sprintf("mkRaw %s %d %s %s %s", cqZ(c36dTopicIdx(sg.Topic)), sg.Part, cqZ(sg.Base), footer, cqList(recs))
	}
	cl := make([]string, len(calls))
	for ci, call := range calls {
		obs := make([]string, len(call.refs))
		for i, ref := range call.refs {
			obs[i] = fmt.Sprintf("mkDObs %s %d [%s; %s; %s; %s]", cqZ(c36dTopicIdx(ref.Topic)), ref.Partition, c36dO(ref.MinOffset), c36dO(ref.MaxOffset), c36dO(ref.MinTimestamp), c36dO(ref.MaxTimestamp))
		}
		cl[ci] = fmt.Sprintf("(%s, %s)", cqBool(call.expired), cqList(obs))
	}
	return fmt.Sprintf("mkDCase %s %s %s %s", cqList(rs), cqBool(cs.Cache), cqZ(int64(cs.MaxEntries)), cqList(cl))
}

func TestVerifC36Discovery(t *testing.T) {
	t.Setenv("AWS_ACCESS_KEY_ID", "verif")
	t.Setenv("AWS_SECRET_ACCESS_KEY", "verif")
	t.Setenv("AWS_EC2_METADATA_DISABLED", "true")
	rep := vNewReport("C36", "discovery: generated buckets (0-2 topics x 0-2 partitions x 1-4 contiguous segments of 1-4 records with offset gaps and jittered timestamps, .kfst footer ~70%, optional incomplete newest segment) served by an in-process S3 endpoint to the real discovery.New stack (s3Lister, time index on/off, manifest lister with a manifest written by the real ManifestBuilder, discovery cache with/without MaxEntries); 5 ListCompleted calls per case (miss, hit, hit, after expiry, hit); non-trivial = a cache or manifest layer is present, at least two listed segments of one partition and at least one time statistic; distinct = distinct case JSON")
	var coq, jsons []string
	runOne := func(cs c36dCase) {
		calls, f, layers, err := c36dRun(cs)
		if f != nil {
			defer f.Close()
		}
		canon, _ := json.Marshal(cs)
		if err != nil {
			rep.Fail("harness", "harness-anomaly", "discovery stack failed against the fake S3: "+err.Error(), cs)
			return
		}
		footers, multi := 0, false
		refs := calls[0].refs
		for i, ref := range refs {
			if ref.MinTimestamp != nil {
				footers++
			}
			if i > 0 && refs[i-1].Topic == ref.Topic && refs[i-1].Partition == ref.Partition {
				multi = true
			}
		}
		rep.Hist("stack=" + layers)
		rep.Count(string(canon), multi && footers > 0 && strings.Contains(layers, ">"))
		rep.Sample(cs)
		if key, what := c36dOracle(cs, calls, f); key != "" {
			rep.Fail("discovery", key, "["+layers+"] "+what, cs)
		}
		coq = append(coq, c36dCoq(cs, calls))
		jsons = append(jsons, string(canon))
	}
	if rc := vReplayCase(); rc != nil {
		var cs c36dCase
		if err := json.Unmarshal(rc, &cs); err == nil && cs.Discovery {
			runOne(cs)
		}
	} else {
		base := []VerifSeg{
			{Topic: "alpha", Part: 0, Base: 0, Offs: []int64{0, 1, 2, 3}, Tss: []int64{20, 30, 10, 25}, Footer: true, Complete: true},
			{Topic: "alpha", Part: 0, Base: 4, Offs: []int64{4, 5}, Tss: []int64{25, 40}, Footer: false, Complete: true},
			{Topic: "alpha", Part: 0, Base: 6, Offs: []int64{6, 7}, Tss: []int64{50, 70}, Footer: true, Complete: true},
			{Topic: "alpha", Part: 1, Base: 0, Offs: []int64{0}, Tss: []int64{5}, Footer: true, Complete: false}}
		runOne(c36dCase{Discovery: true, Segs: base, TimeIndex: true})
		runOne(c36dCase{Discovery: true, Segs: base, TimeIndex: true, Cache: true})
		runOne(c36dCase{Discovery: true, Segs: base, TimeIndex: true, Manifest: true})
		runOne(c36dCase{Discovery: true, Segs: base, TimeIndex: true, Cache: true, Manifest: true})
		runOne(c36dCase{Discovery: true, Segs: base, TimeIndex: true, Cache: true, MaxEntries: 2})
		runOne(c36dCase{Discovery: true, Segs: base, TimeIndex: true, Cache: true, Manifest: true, RealSleep: true})
		r := vNewRand(vSeed() + 77)
		n := vN(60, 500)
		for i := 0; i < n; i++ {
			runOne(c36dGen(r.Fork()))
		}
	}
	rep.Cases("C36_discovery", "From KS Require Import lib.Base model.SqlExec corr.SqlExecCorr.", "dcase", "check_dcase", coq, jsons)
	rep.WriteAs("C36_discovery")
	if len(rep.Failures) > 0 {
		t.Logf("oracle failures: %s", rep.Failures[0].What)
	}
}
