package discovery

// C36 harness (discovery part): generated buckets (segments of several topics and
// partitions, with/without .kfst time-index footer, incomplete segments without
// footer magic or without index) are served by an in-process fake S3 endpoint to the
// real s3Lister.ListCompleted (real AWS SDK client, real paginator, real footer
// parsing). The statistics of the returned SegmentRefs are compared with the Coq
// discovery model and checked by an implementation-side oracle: every listed
// segment's statistics bound the records stored in it, every completed segment is
// listed exactly once, in (topic, partition, base offset) order.

import (
	"context"
	"encoding/json"
	"encoding/xml"
	"fmt"
	"net/http"
	"net/http/httptest"
	"sort"
	"strconv"
	"strings"
	"testing"

	"github.com/aws/aws-sdk-go-v2/aws"
	"github.com/aws/aws-sdk-go-v2/service/s3"
)

type c36dSeg struct {
	Topic    int     `json:"topic"`
	Part     int32   `json:"part"`
	Base     int64   `json:"base"`
	Offs     []int64 `json:"offs"` // record offsets
	Tss      []int64 `json:"tss"`  // record timestamps
	Footer   bool    `json:"footer"`
	Complete bool    `json:"complete"` // .kfs ends with the footer magic and has an index
	NoIndex  bool    `json:"no_index,omitempty"`
}
type c36dCase struct {
	Segs []c36dSeg `json:"segs"`
}

var c36dTopics = []string{"alpha", "beta"}

func c36dKey(sg c36dSeg, suffix string) string {
	return fmt.Sprintf("ns/%s/%d/segment-%020d%s", c36dTopics[sg.Topic], sg.Part, sg.Base, suffix)
}

func c36dMinMax(v []int64) (int64, int64) {
	mn, mx := v[0], v[0]
	for _, x := range v {
		if x < mn {
			mn = x
		}
		if x > mx {
			mx = x
		}
	}
	return mn, mx
}

func c36dObjects(cs c36dCase) map[string][]byte {
	objs := map[string][]byte{}
	for _, sg := range cs.Segs {
		body := []byte("segment-body")
		if sg.Complete {
			body = append(body, []byte(segmentFooterMagic)...)
		} else {
			body = append(body, []byte("XXXX")...)
		}
		objs[c36dKey(sg, ".kfs")] = body
		if !sg.NoIndex {
			objs[c36dKey(sg, ".index")] = []byte("idx")
		}
		if sg.Footer && len(sg.Offs) > 0 {
			mnT, mxT := c36dMinMax(sg.Tss)
			mnO, mxO := c36dMinMax(sg.Offs)
			objs[c36dKey(sg, ".kfst")] = append([]byte("entries"), encodeTimeIndexFooter(mnT, mxT, mnO, mxO)...)
		}
	}
	return objs
}

type c36dListResult struct {
	XMLName     xml.Name      `xml:"ListBucketResult"`
	Name        string        `xml:"Name"`
	Prefix      string        `xml:"Prefix"`
	KeyCount    int           `xml:"KeyCount"`
	MaxKeys     int           `xml:"MaxKeys"`
	IsTruncated bool          `xml:"IsTruncated"`
	NextToken   string        `xml:"NextContinuationToken,omitempty"`
	Contents    []c36dContent `xml:"Contents"`
}
type c36dContent struct {
	Key          string `xml:"Key"`
	Size         int    `xml:"Size"`
	LastModified string `xml:"LastModified"`
}

// c36dServe: path-style S3 subset: ListObjectsV2 (paginated, 3 keys per page) and ranged GetObject.
func c36dServe(objs map[string][]byte) http.Handler {
	keys := make([]string, 0, len(objs))
	for k := range objs {
		keys = append(keys, k)
	}
	sort.Strings(keys)
	return http.HandlerFunc(func(w http.ResponseWriter, r *http.Request) {
		path := strings.TrimPrefix(r.URL.Path, "/")
		parts := strings.SplitN(path, "/", 2)
		if len(parts) == 1 || parts[1] == "" { // bucket-level: list
			prefix := r.URL.Query().Get("prefix")
			start := 0
			if tok := r.URL.Query().Get("continuation-token"); tok != "" {
				start, _ = strconv.Atoi(tok)
			}
			var matched []string
			for _, k := range keys {
				if strings.HasPrefix(k, prefix) {
					matched = append(matched, k)
				}
			}
			res := c36dListResult{Name: parts[0], Prefix: prefix, MaxKeys: 3}
			end := start + 3
			if end < len(matched) {
				res.IsTruncated = true
				res.NextToken = strconv.Itoa(end)
			} else {
				end = len(matched)
			}
			for _, k := range matched[start:end] {
				res.Contents = append(res.Contents, c36dContent{Key: k, Size: len(objs[k]), LastModified: "2026-01-01T00:00:00.000Z"})
			}
			res.KeyCount = len(res.Contents)
			w.Header().Set("Content-Type", "application/xml")
			_ = xml.NewEncoder(w).Encode(res)
			return
		}
		body, ok := objs[parts[1]]
		if !ok {
			w.Header().Set("Content-Type", "application/xml")
			w.WriteHeader(http.StatusNotFound)
			_, _ = w.Write([]byte(`<?xml version="1.0" encoding="UTF-8"?><Error><Code>NoSuchKey</Code><Message>not found</Message></Error>`))
			return
		}
		if rg := r.Header.Get("Range"); strings.HasPrefix(rg, "bytes=-") {
			n, _ := strconv.Atoi(strings.TrimPrefix(rg, "bytes=-"))
			if n > len(body) {
				n = len(body)
			}
			w.Header().Set("Content-Range", fmt.Sprintf("bytes %d-%d/%d", len(body)-n, len(body)-1, len(body)))
			w.Header().Set("Content-Length", strconv.Itoa(n))
			w.WriteHeader(http.StatusPartialContent)
			_, _ = w.Write(body[len(body)-n:])
			return
		}
		_, _ = w.Write(body)
	})
}

func c36dRun(cs c36dCase) ([]SegmentRef, error) {
	srv := httptest.NewServer(c36dServe(c36dObjects(cs)))
	defer srv.Close()
	client := s3.New(s3.Options{Region: "us-east-1", BaseEndpoint: aws.String(srv.URL), UsePathStyle: true,
		Credentials: aws.AnonymousCredentials{}, RetryMaxAttempts: 1})
	l := &s3Lister{client: client, bucket: "bkt", prefix: normalizePrefix("ns")}
	l.timeIndex = newTimeIndexReader(client, "bkt", "")
	return l.ListCompleted(context.Background())
}

func c36dOracle(cs c36dCase, refs []SegmentRef) (string, string) {
	// expected listing: completed segments sorted by topic, partition, base
	var want []c36dSeg
	for _, sg := range cs.Segs {
		if sg.Complete && !sg.NoIndex {
			want = append(want, sg)
		}
	}
	sort.SliceStable(want, func(i, j int) bool {
		a, b := want[i], want[j]
		if a.Topic != b.Topic {
			return c36dTopics[a.Topic] < c36dTopics[b.Topic]
		}
		if a.Part != b.Part {
			return a.Part < b.Part
		}
		return a.Base < b.Base
	})
	if len(refs) != len(want) {
		return "listing-incomplete", fmt.Sprintf("ListCompleted returned %d segments, the bucket holds %d completed segments", len(refs), len(want))
	}
	for i, ref := range refs {
		sg := want[i]
		if ref.Topic != c36dTopics[sg.Topic] || ref.Partition != sg.Part || ref.BaseOffset != sg.Base {
			return "listing-order", fmt.Sprintf("segment %d is %s/%d/%d, expected %s/%d/%d", i, ref.Topic, ref.Partition, ref.BaseOffset, c36dTopics[sg.Topic], sg.Part, sg.Base)
		}
		for k := range sg.Offs {
			o, ts := sg.Offs[k], sg.Tss[k]
			if (ref.MinOffset != nil && o < *ref.MinOffset) || (ref.MaxOffset != nil && o > *ref.MaxOffset) {
				return "offset-stats-unsound", fmt.Sprintf("segment %s/%d base %d holds offset %d outside its statistics", ref.Topic, ref.Partition, ref.BaseOffset, o)
			}
			if (ref.MinTimestamp != nil && ts < *ref.MinTimestamp) || (ref.MaxTimestamp != nil && ts > *ref.MaxTimestamp) {
				return "time-stats-unsound", fmt.Sprintf("segment %s/%d base %d holds timestamp %d outside its statistics", ref.Topic, ref.Partition, ref.BaseOffset, ts)
			}
		}
	}
	return "", ""
}

func c36dGen(r *vRand) c36dCase {
	var cs c36dCase
	for topic := 0; topic < 2; topic++ {
		for p := int32(0); p < int32(r.Range(0, 2)); p++ {
			next := int64(0)
			if r.Chance(30) {
				next = int64(r.Range(1, 30))
			}
			clock := int64(r.Range(1, 50))
			for s := 0; s < r.Range(1, 4); s++ {
				sg := c36dSeg{Topic: topic, Part: p, Base: next, Footer: r.Chance(60), Complete: true}
				n := r.Range(1, 4)
				for k := 0; k < n; k++ {
					if r.Chance(20) {
						next += int64(r.Range(1, 3))
					}
					clock += int64(r.Range(-3, 6))
					sg.Offs = append(sg.Offs, next)
					sg.Tss = append(sg.Tss, clock)
					next++
				}
				if r.Chance(15) {
					next += int64(r.Range(1, 5))
				}
				cs.Segs = append(cs.Segs, sg)
			}
			if r.Chance(25) { // the partition's newest segment is still being written
				sg := c36dSeg{Topic: topic, Part: p, Base: next, Offs: []int64{next}, Tss: []int64{clock + 1}, Footer: r.Bool()}
				if r.Bool() {
					sg.Complete, sg.NoIndex = true, true
				}
				cs.Segs = append(cs.Segs, sg)
			}
		}
	}
	return cs
}

func c36dO(p *int64) string {
	if p == nil {
		return "None"
	}
	return "(Some " + cqZ(*p) + ")"
}

func c36dCoq(cs c36dCase, refs []SegmentRef) string {
	// raw segments in the model = the completed ones, in the order of the real listing's sort key
	var raws []c36dSeg
	for _, sg := range cs.Segs {
		if sg.Complete && !sg.NoIndex {
			raws = append(raws, sg)
		}
	}
	sort.SliceStable(raws, func(i, j int) bool {
		a, b := raws[i], raws[j]
		if a.Topic != b.Topic {
			return c36dTopics[a.Topic] < c36dTopics[b.Topic]
		}
		if a.Part != b.Part {
			return a.Part < b.Part
		}
		return a.Base < b.Base
	})
	rs := make([]string, len(raws))
	for i, sg := range raws {
		footer := "None"
		if sg.Footer && len(sg.Offs) > 0 {
			mnT, mxT := c36dMinMax(sg.Tss)
			mnO, mxO := c36dMinMax(sg.Offs)
			footer = fmt.Sprintf("(Some (%s, %s, %s, %s))", cqZ(mnT), cqZ(mxT), cqZ(mnO), cqZ(mxO))
		}
		recs := make([]string, len(sg.Offs))
		for k := range sg.Offs {
			recs[k] = fmt.Sprintf("mkRec %s %s", cqZ(sg.Offs[k]), cqZ(sg.Tss[k]))
		}
		rs[i] = fmt.Sprintf("mkRaw %d %d %s %s %s", sg.Topic, sg.Part, cqZ(sg.Base), footer, cqList(recs))
	}
	obs := make([]string, len(refs))
	for i, ref := range refs {
		topic := -1
		for k, n := range c36dTopics {
			if n == ref.Topic {
				topic = k
			}
		}
		obs[i] = fmt.Sprintf("mkDObs %s %d [%s; %s; %s; %s]", cqZ(int64(topic)), ref.Partition, c36dO(ref.MinOffset), c36dO(ref.MaxOffset), c36dO(ref.MinTimestamp), c36dO(ref.MaxTimestamp))
	}
	return fmt.Sprintf("mkDCase %s %s", cqList(rs), cqList(obs))
}

func TestVerifC36Discovery(t *testing.T) {
	rep := vNewReport("C36", "discovery: generated buckets (0-2 topics x 0-2 partitions x 1-4 contiguous segments of 1-4 records with offset gaps and jittered timestamps, .kfst footer present ~60%, optional incomplete newest segment without footer magic or without index) served by an in-process S3 endpoint (paginated listing, ranged reads) to the real s3Lister.ListCompleted; non-trivial = at least two listed segments of one partition and at least one footer; distinct = distinct case JSON")
	var coq, jsons []string
	runOne := func(cs c36dCase) {
		refs, err := c36dRun(cs)
		canon, _ := json.Marshal(cs)
		if err != nil {
			rep.Fail("harness", "harness-anomaly", "ListCompleted failed against the fake S3: "+err.Error(), cs)
			return
		}
		footers, multi := 0, false
		for i, ref := range refs {
			if ref.MinTimestamp != nil {
				footers++
			}
			if i > 0 && refs[i-1].Topic == ref.Topic && refs[i-1].Partition == ref.Partition {
				multi = true
			}
		}
		rep.Hist(fmt.Sprintf("listed=%d", len(refs)))
		rep.Count(string(canon), multi && footers > 0)
		rep.Sample(cs)
		if key, what := c36dOracle(cs, refs); key != "" {
			rep.Fail("discovery", key, what, cs)
		}
		coq = append(coq, c36dCoq(cs, refs))
		jsons = append(jsons, string(canon))
	}
	if rc := vReplayCase(); rc != nil {
		var cs c36dCase
		if err := json.Unmarshal(rc, &cs); err == nil && len(cs.Segs) > 0 && len(cs.Segs[0].Offs) > 0 {
			runOne(cs)
		}
	} else {
		runOne(c36dCase{Segs: []c36dSeg{
			{Topic: 0, Part: 0, Base: 0, Offs: []int64{0, 1, 2}, Tss: []int64{10, 30, 20}, Footer: true, Complete: true},
			{Topic: 0, Part: 0, Base: 3, Offs: []int64{3, 5}, Tss: []int64{25, 40}, Footer: false, Complete: true},
			{Topic: 0, Part: 0, Base: 6, Offs: []int64{6}, Tss: []int64{50}, Footer: true, Complete: true},
			{Topic: 0, Part: 1, Base: 0, Offs: []int64{0}, Tss: []int64{5}, Footer: true, Complete: false}}})
		r := vNewRand(vSeed() + 77)
		n := vN(60, 600)
		for i := 0; i < n; i++ {
			runOne(c36dGen(r.Fork()))
		}
	}
	rep.Cases("C36_discovery", "From KS Require Import lib.Base model.SqlExec corr.SqlExecCorr.", "dcase", "check_dcase", coq, jsons)
	rep.WriteAs("C36_discovery")
	if len(rep.Failures) > 0 {
		t.Logf("oracle failures: %s", rep.Failures[0].What)
	}
}
