#!/bin/bash
# Runs the repository's pinned baseline suite (guard OFF: no overlay, no verif tag) on
# ${VERIF_REPO:-/repo} and compares the passing set with /root/.vp/BASELINE.json.
# exit 0 iff every stable_pass test passed.
REPO=${VERIF_REPO:-/repo}
export GOFLAGS=-mod=mod GOPROXY=off
OUT=$(mktemp -d /tmp/verif-baseline.XXXXXX)
trap 'rm -rf "$OUT"' EXIT
for m in . addons/processors/iceberg-processor addons/processors/skeleton addons/processors/sql-processor; do
  (cd "$REPO/$m" && go test -mod=mod -json -vet=off -count=1 -timeout 25m ./... ) >> "$OUT/run.json" 2>>"$OUT/err.txt"
done
python3 - "$OUT/run.json" <<'PY'
import json,sys
b=json.load(open('/root/.vp/BASELINE.json'))
want=set(b['stable_pass'])
passed=set(); failed=set()
for line in open(sys.argv[1],errors='replace'):
    line=line.strip()
    if not line.startswith('{'): continue
    try: ev=json.loads(line)
    except Exception: continue
    a=ev.get('Action'); t=ev.get('Test'); p=ev.get('Package','')
    if t is None or a not in('pass','fail'): continue
    (passed if a=='pass' else failed).add(p+'::'+t)
passed-=failed
missing=sorted(want-passed)
print(f"baseline: want={len(want)} passed_of_want={len(want&passed)} failed={len(failed)}")
for m in missing[:40]: print("  NOT PASSING:",m)
sys.exit(1 if missing else 0)
PY
